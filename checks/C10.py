"""C10 - Layered state views (CacheDB -> OverlayDB -> LevelDB) agree with their backing store.
spec/Overlay.tla (+TraceOverlay.tla); driver harness/cmd/vd-store (overlay.go).
  1. P-MC     : PropC10 (reads newest-first, JoinIter two-cursor machine = declarative merged scan for every index
                range, nested for the CacheDB iterator) + action property PropC10Step (commit applies exactly the upper
                layer, reset discards) on the model, exhaustive.
  2. P-EDGE   : every (abstract state, op, args) edge - arbitrary initial store contents x block layer x tx layer -
                replayed on the real stack; returned values / scan listings and the projected three layers compared.
  3. P-VALIDATE: random histories over 5 keys recorded from the real stack, validated by TLC against TraceOverlay.
"""
from concurrent.futures import ThreadPoolExecutor


def run(ctx):
    q = ctx.quick
    b = ctx.build("vd-store")
    mcs = ["Overlay_mc_quick.cfg", "Overlay_mc_quick3.cfg"] if q else ["Overlay_mc_thorough.cfg", "Overlay_mc_thorough4.cfg", "Overlay_mc_quick.cfg"]
    for cfg in mcs:
        ctx.mc("Overlay", cfg, timeout=2400)
    gens = [("Overlay_gen_k2.cfg", 2), ("Overlay_gen_k3q.cfg", 3), ("Overlay_gen_batchq.cfg", 2)] if q else \
           [("Overlay_gen_k2v3.cfg", 2), ("Overlay_gen_k3.cfg", 3), ("Overlay_gen_batch.cfg", 2), ("Overlay_gen_k2.cfg", 2)]
    with ThreadPoolExecutor(max_workers=4) as ex:      # generation runs are single-threaded TLC: run them side by side
        futs = [ex.submit(ctx.gen, "Overlay", cfg, "EDGE", timeout=2400) for cfg, _ in gens]
        edge_sets = [f.result() for f in futs]
    total = distinct = 0
    for (cfg, k), edges in zip(gens, edge_sets):
        if len(edges) < 5000:
            ctx.fail("too few edges generated from %s: %d" % (cfg, len(edges)))
        out = ctx.driver(b, ["overlay-edges", str(k)], input_obj=edges)
        summ = [o for o in out if o.get("summary")][0]
        if summ["edges"] != len(edges):
            ctx.fail("driver replayed %d of %d edges" % (summ["edges"], len(edges)))
        total += summ["edges"]
        distinct += summ["distinct"]
        ctx.sample({"edge": edges[len(edges) // 3]})
        for o in out:
            if not o.get("mismatch"):
                continue
            c10 = [d for d in o["diffs"] if d in ("obs", "st", "blk", "tx", "panic", "inconsistent", "unclean")]
            if not c10:
                continue            # ws / digest only: that is C11's business
            e = o["edge"]
            ctx.violation("overlay-edge:%s:%s" % (e["op"], "+".join(c10)),
                          {"diffs": o["diffs"], "keys": o.get("keys"), "args": e["a"], "v": e["v"], "expected_obs": e["obs"],
                           "got_obs": o.get("got"), "expected_layers": e["post"], "got_layers": o.get("gotPost"),
                           "panic": o.get("panic"), "inconsistent": o.get("inconsistent"), "history": e["h"]},
                          replay={"kind": "overlay-edge", "k": k, "edge": e})
    # recorded histories
    n, ln = (16, 100) if q else (150, 160)
    events = ctx.driver(b, ["overlay-record", str(n), str(ln)])
    hard = [e for e in events if e.get("op") == "PANIC" or (e.get("op") in ("tscan", "bscan") and isinstance(e.get("obs"), str))
            or (e.get("op") in ("tget", "bget") and str(e.get("obs")).startswith("ERR:"))]
    if hard:
        ctx.violation("overlay-trace:%s" % hard[0].get("op"), {"event": hard[0]}, replay={"kind": "overlay-trace", "events": events[:events.index(hard[0]) + 1][-200:]})
    else:
        ok, hw, r = ctx.validate_trace("TraceOverlay", "TraceOverlay.cfg", events, timeout=2400)
        if not ok:
            bad = events[hw - 1] if hw - 1 < len(events) else None
            ctx.violation("overlay-trace:%s" % (bad or {}).get("op"), {"rejected_event_index": hw, "event": bad,
                          "invariant": r.invariant_violated, "context": events[max(0, hw - 8):hw]},
                          replay={"kind": "overlay-trace", "events": events[_last_reset(events, hw - 1):hw]})
        else:
            ctx.cov["traces_validated_against_impl"] += n
    ctx.sample({"recorded_events": events[0:4]})
    ctx.cov["evaluations"] = total + len(events)
    ctx.cov["distinct_nontrivial"] = distinct
    return ctx.finish(rule="P-EDGE: every (abstract state = initial store x block layer x tx layer [x pending batch], op, args) edge "
                      "printed once by TLC (VIEW hides the history) and replayed on the real CacheDB/OverlayDB/LevelDB stack after "
                      "re-creating the source state; distinct_nontrivial = distinct (op,args,observation,post-layers) tuples excluding "
                      "lookups on an untouched stack. P-VALIDATE: %d random histories x %d ops over 5 keys." % (n, ln),
                      assumptions=["keys are drawn from byte-string families with a prefix pair, NUL / 0xff suffixes, the empty key; values x / yz / 00 7a / empty",
                                   "the store never holds empty values (it is only written through CommitTo, which deletes on empty)",
                                   "iterators: First() once, then Next() until false; while an iterator is open only reads and writes outside its range are interleaved",
                                   "a real stack is reused for up to 200 edges after Reset() of both layers (checked empty) - a fresh one otherwise"])


def _last_reset(events, i):
    i = min(i, len(events) - 1)
    while i > 0 and events[i].get("op") != "reset":
        i -= 1
    return i
