"""C43 - Wallet accounts round-trip and are password-protected.
spec/Wallet.tla (model + PropC43), spec/WalletProp.tla (the property operator), spec/TraceWallet.tla (monitor of real
observations); driver harness/cmd/vd-wallet.
  1. P-MC      : PropC43 on the wallet state machine (new/import/delete/setdefault/setlabel/chpw/reopen/convert over
                 2 accounts x 3 passwords x {default, low-security} scrypt parameter sets), exhaustive; plus the same
                 model with NewEnc="default" (what client.go does: F16), which TLC must REFUTE (the monitor bites).
  2. P-EDGE    : (incl. the fault edges: every saving call also with the wallet file made unwritable - it must fail and
                 leave every account readable with its old password, live and after the next successful save + reopen)
                 every (state, call, args) edge of the bounded graph printed once by TLC and executed on a real
                 account.ClientImpl with a wallet file under ctx.out (real scrypt, real key pairs of ECDSA/SM2/Ed25519):
                 per source state one real session replays the shared history and then all edges that leave the wallet
                 unchanged; every edge that changes it gets its own session.
  3. P-VALIDATE: all real observations of (2) and of long random histories are judged by TLC against TraceWallet:
                 each decryption outcome must satisfy GetConforms (opens with its password and no other, same key pair
                 and address), deletes/password changes need the right password, live accounts stay listed exactly once.
                 Predictions of the model that the code does not follow but the monitor accepts are DRIFT (noted).
"""
import json, re


def _key(ev, why):
    if (ev.get("op") == "get" and why == "right-password-rejected" and ev.get("defdec") and ev.get("wparams") != "default"
            and ev.get("origin") == "new"):
        return "wallet:newaccount-ignores-wallet-scrypt-params"
    return "wallet:%s:%s:origin=%s" % (ev.get("op"), why, ev.get("origin", "-"))


def _judge(ctx, events, timeout):
    """TLC on TraceWallet; returns {event index (0-based): reason} of non-conforming events."""
    ok, hw, r = ctx.validate_trace("TraceWallet", "TraceWallet.cfg", events, timeout=timeout)
    if not ok:
        ctx.fail("TraceWallet did not consume the log (highwater %d of %d, rc=%d): malformed trace?\n%s" %
                 (hw, len(events), r.rc, r.out[-3000:]))
    bad = {}
    for ln in r.lines:
        m = re.match(r'<<"BAD", (\d+), "([^"]*)">>', ln)
        if m:
            bad.setdefault(int(m.group(1)) - 1, m.group(2))
    return bad


def _strip(ev):
    return {k: ev[k] for k in ("op", "id", "p", "q", "res", "rid", "same", "ids", "f")}


def run(ctx):
    q = ctx.quick
    b = ctx.build("vd-wallet")
    if ctx.replay:
        return _replay(ctx, b)
    ctx.mc("Wallet", "Wallet_mc_quick.cfg" if q else "Wallet_mc_thorough.cfg", timeout=1500)
    r = ctx.tlc("Wallet", "Wallet_mc_f16.cfg", timeout=600, quiet=True)
    if r.invariant_violated != "PropC43":
        ctx.fail("PropC43 does not refute the model of the known defect (NewEnc=default): the monitor is vacuous (rc=%d)" % r.rc)

    # ---- P-EDGE: replay on the real wallet
    edges = ctx.gen("Wallet", "Wallet_gen_quick.cfg" if q else "Wallet_gen_thorough.cfg", "EDGE", timeout=1500)
    if len(edges) < 1500:
        ctx.fail("too few edges generated: %d" % len(edges))
    out = ctx.driver(b, ["edges"], input_obj=edges, timeout=14000)   # generous: scrypt-bound, machine may be shared
    summ = [o for o in out if o.get("summary")]
    if not summ or summ[0]["edges"] != len(edges):
        ctx.fail("driver did not replay all %d edges" % len(edges))
    sessions = [o for o in out if "session" in o]
    events, owner = [], []          # owner[i] = (session, edge record or None)
    for s in sessions:
        span = {}
        for e in s["edges"]:
            for k in range(e["from"], e["to"]):
                span[k] = e
        for k, ev in enumerate(s["events"]):
            events.append(ev)
            owner.append((s, span.get(k)))
    replayed = sum(len(s["edges"]) for s in sessions)
    if replayed != len(edges):
        ctx.fail("driver reported %d of %d edges" % (replayed, len(edges)))
    bad = _judge(ctx, [_strip(e) for e in events], 1500)
    flagged_sessions = set()
    for i, why in sorted(bad.items()):
        s, e = owner[i]
        flagged_sessions.add(s["session"])
        ev = events[i]
        first = i
        while events[first]["op"] != "reset":
            first -= 1
        edge = edges[e["edge"]] if e else None
        ctx.violation(_key(ev, why), {"reason": why, "event": ev, "edge": edge, "prediction_diff": e.get("diff") if e else s.get("histdiff")},
                      replay={"kind": "wallet-edge", "edge": edge, "session_events": events[first:i + 1]})
    classes, drift, drift_clean = set(), 0, []
    for s in sessions:
        for e in s["edges"]:
            if not e["class"].split("/")[1] == "none":
                classes.add(e["class"])
            if not e["match"] or s.get("histdiff"):
                drift += 1
                if s["session"] not in flagged_sessions:
                    drift_clean.append({"edge": edges[e["edge"]], "diff": e.get("diff"), "histdiff": s.get("histdiff")})
    if drift:
        ctx.note("DRIFT: %d of %d edges did not go as the model predicts; %d of them in sessions without any event the "
                 "monitor rejects (property kept, model shape not)" % (drift, len(edges), len(drift_clean)))
        for d in drift_clean[:3]:
            ctx.note("drift sample: %s" % json.dumps(d)[:500])
    ctx.sample({"edge": edges[len(edges) // 2]})
    ctx.sample({"real_events": [_strip(e) for e in sessions[0]["events"][:4]]})

    # ---- P-VALIDATE: long random histories
    n, ln = (16, 30) if q else (96, 60)
    rec = ctx.driver(b, ["record", str(n), str(ln)], timeout=14000)
    rec = sorted([o for o in rec if "trace" in o], key=lambda o: o["trace"])
    if len(rec) != n:
        ctx.fail("driver recorded %d of %d histories" % (len(rec), n))
    revents, rowner = [], []
    for t in rec:
        for ev in t["events"]:
            revents.append(ev)
            rowner.append(t["trace"])
    rbad = _judge(ctx, [_strip(e) for e in revents], 1500)
    for i, why in sorted(rbad.items()):
        ev = revents[i]
        first = i
        while revents[first]["op"] != "reset":
            first -= 1
        ctx.violation(_key(ev, why), {"reason": why, "event": ev, "history": rowner[i], "context": revents[max(first, i - 6):i + 1]},
                      replay={"kind": "wallet-record", "trace": rowner[i], "n": n, "len": ln, "seed": ctx.seed,
                              "events": revents[first:i + 1]})
    ctx.cov["traces_validated_against_impl"] += len(sessions) + n
    ctx.sample({"random_history_events": [_strip(e) for e in revents[1:5]]})
    ctx.cov["evaluations"] = len(events) + len(revents)
    ctx.cov["distinct_nontrivial"] = len(classes)
    ctx.cov["edges_replayed"] = len(edges)
    ctx.cov["edges_as_predicted"] = len(edges) - drift
    ctx.cov["decryption_requests_judged"] = sum(1 for e in events + revents if e["op"] == "get")
    return ctx.finish(rule="P-EDGE: every (abstract wallet state, call, args) edge of the bounded model printed once by TLC and executed "
                      "on a real ClientImpl + wallet file (%d sessions); P-VALIDATE: every real call of those sessions and of %d random "
                      "histories x %d calls judged by TLC against the monitor TraceWallet. distinct_nontrivial = distinct "
                      "(call, predicted outcome, password class, parameter set, loaded, #accounts, preceding call, #lookup paths) "
                      "classes with an outcome other than 'none'." % (len(sessions), n, ln),
                      assumptions=["scrypt/AES-GCM are sound (a wrong password is refused by authentication, not by the wallet logic)",
                                   "passwords: 'a', a 290-byte one with NUL/tab, a non-ASCII one (+5 near-miss ones in random histories); "
                                   "labels ASCII / non-ASCII / with quotes; '' only as a wrong password",
                                   "imported accounts are sealed under the target wallet's scrypt parameter set and always carry a fresh key",
                                   "passwords that differ only by trailing NUL bytes are one scrypt input (PBKDF2-HMAC pads the key "
                                   "with zeros) and count as the same password",
                                   "legacy aes-256-ctr protected keys are outside the domain (observation in notes/built/C43.md)"])


def _replay(ctx, b):
    rp = json.load(open(ctx.replay))["replay"]
    if rp["kind"] == "wallet-edge" and rp.get("edge"):
        out = ctx.driver(b, ["edges"], input_obj=[rp["edge"]])
        evs = [o for o in out if "session" in o][0]["events"]
    else:
        out = ctx.driver(b, ["record", str(rp["n"]), str(rp["len"]), str(rp["trace"])], env={"VERIF_SEED": str(rp["seed"])})
        evs = [o for o in out if "trace" in o][0]["events"]
    bad = _judge(ctx, [_strip(e) for e in evs], 600)
    for i, why in sorted(bad.items()):
        ctx.violation(_key(evs[i], why), {"reason": why, "event": evs[i]}, replay=rp)
    ctx.cov["evaluations"] = len(evs)
    ctx.cov["distinct_nontrivial"] = max(2, len(bad))
    ctx.sample({"replayed_events": [_strip(e) for e in evs[:6]]})
    return ctx.finish(rule="replay of one recorded case")
