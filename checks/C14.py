"""C14 - Blocks need a signature quorum of the validators in force.
spec/SigQuorum.tla (+ TraceSigQuorum.tla, QuorumDefs.tla); driver harness/cmd/vd-sig (hdr-table / hdr-replay / hdr-random).

  1. P-MC      design theorem: on every header over a small key universe and every set in force, the code-shaped
               test (m, membership, no repeats, greedy mask) implies the monitor (>= need distinct members signed),
               and canonical headers pass; both threshold rules, vbft and solo branch.
               Sensitivity run: with AsIs = TRUE (block set assigned before the body is checked - the code before
               fix 306f139) TLC must find the set-discipline counterexample; if it does not, the model lost its teeth.
  2. P-TABLE   TLC prints the decision table (all signer subsets x 18 header variants: repeated / foreign / unlisted
               signer, bad / missing / surplus / reordered signatures) for vbft-legacy, vbft-bft (header index padded
               beyond 20,000,000 on the main network), and the solo branch (incl. 17 bookkeepers); every row is
               executed on a real on-disk ledger through AddHeader, SubmitBlock and AddBlock with real keys/signatures.
  3. P-REPLAY  every 3-step behaviour of the hand-over model (announcing blocks, accepted or rejected by signature or
               by body, followed by blocks signed by old / announced / foreign sets) is executed on the real ledger.
  4. P-VALIDATE every execution above, plus random sync-like runs, is recorded and judged by TLC against the monitor
               (TraceSigQuorum): Safety, Rule, SetOnly per event.  Only monitor failures are violations; a mismatch
               with the implementation-shaped prediction that the monitor accepts is recorded as drift.
"""
import json, concurrent.futures

CFG = """SPECIFICATION Spec
CONSTANTS Kind = "%(kind)s"
          Mode = "%(mode)s"
          Rule = "%(rule)s"
          N = %(n)d
          FullN = %(fulln)d
          NsLegacy = %(nsl)s
          NsBft = %(nsb)s
          NsSolo = %(nss)s
          Cfgs = %(cfgs)s
          Lists = %(lists)s
          Paths = %(paths)s
          D = %(d)d
          AsIs = %(asis)s
          EmitOn = %(emit)s
%(extra)s
CHECK_DEADLOCK FALSE
"""


def cfg(kind, mode="vbft", rule="legacy", n=1, fulln=5, nsl="{}", nsb="{}", nss="{}", cfgs="{}", lists="{}", paths="{}", d=0,
        asis="FALSE", emit="TRUE", extra="INVARIANT PropC14"):
    return CFG % locals()


def tset(xs):
    return "{" + ", ".join(str(x) for x in xs) + "}"


F11 = "vbft-block:peer-set-switched-by-rejected-block"
SOLO17 = "solo:more-than-16-bookkeepers:any-key-list-accepted"


def _par(jobs, width):
    """run callables concurrently (they only start sub-processes); results in order; the first exception is re-raised"""
    import time as _t
    t0 = _t.time()
    done = []

    def timed(j, k):
        def f():
            r = j()
            done.append((k, round(_t.time() - t0, 1)))
            return r
        return f
    with concurrent.futures.ThreadPoolExecutor(max_workers=width) as ex:
        futs = [ex.submit(timed(j, k)) for k, j in enumerate(jobs)]
        res, err = [], None
        for f in futs:
            try:
                res.append(f.result())
            except Exception as e:        # NoVerdict included
                res.append(None)
                err = err or e
        if err:
            raise err
        _par.last = sorted(done)
        return res


def run(ctx):
    q = ctx.quick
    b = ctx.build("vd-sig")
    if q:
        worlds = {("vbft", "legacy"): ([1, 2, 3, 4, 5, 8], {1: "hdr,sub,add", 2: "hdr,sub,add", 3: "hdr,sub,add", 4: "hdr,sub,add", 5: "hdr", 8: "hdr,sub"}),
                  ("vbft", "bft"): ([3, 4, 7], {3: "hdr,sub", 4: "hdr,sub,add", 7: "hdr"}),
                  ("solo", "bft"): ([1, 2, 3, 4, 5, 16, 17], {1: "hdr,sub,add", 2: "hdr,sub,add", 3: "hdr,sub,add", 4: "hdr,sub,add", 5: "hdr", 16: "hdr,sub", 17: "hdr,sub,add"})}
        fulln = 5
        replays = [("vbft", "legacy", 4, "{{5}, {2, 5}}", "{{1}, {5}, {2}, {}}", '{"hdr"}'),
                   ("vbft", "legacy", 4, "{{5}}", "{{1}, {5}}", '{"sub"}'),
                   ("vbft", "legacy", 4, "{{5}}", "{{1}, {5}}", '{"add"}'),
                   ("solo", "bft", 3, "{{1, 2, 3}, {4}}", "{{1, 2, 3}, {4}, {1, 2}}", '{"hdr"}'),
                   ("solo", "bft", 3, "{{1, 2, 3}, {4}}", "{{1, 2, 3}, {4}}", '{"sub"}')]
    else:
        # (a genesis block cannot be built for more than 16 bookkeepers in any mode since fix 61788f9; larger vbft sets
        #  are reached by hand-over in the replays and in C42's threshold measurements)
        worlds = {("vbft", "legacy"): ([1, 2, 3, 4, 5, 6, 7, 8, 15, 16], {7: "hdr,sub", 15: "hdr,sub", 16: "hdr"}),
                  ("vbft", "bft"): ([1, 2, 3, 4, 5, 6, 7, 10, 16], {7: "hdr,sub", 10: "hdr,sub", 16: "hdr"}),
                  ("solo", "bft"): ([1, 2, 3, 4, 5, 6, 7, 16, 17], {7: "hdr,sub", 16: "hdr,sub"})}
        fulln = 7
        replays = [("vbft", "legacy", 4, "{{5}, {2, 5}}", "{{1}, {5}, {2}, {}, {1, 5}}", '{"hdr"}'),
                   ("vbft", "legacy", 4, "{{5}, {2, 5}}", "{{1}, {5}, {}}", '{"sub"}'),
                   ("vbft", "legacy", 4, "{{5}, {2, 5}}", "{{1}, {5}, {}}", '{"add"}'),
                   ("vbft", "legacy", 4, "{{5}}", "{{1}, {5}}", '{"sub", "add"}'),
                   ("vbft", "legacy", 8, "{{9}, {1, 9}}", "{{1, 2}, {9}, {1}}", '{"sub"}'),
                   ("vbft", "legacy", 4, "{{5, 6, 7, 8, 9, 10, 11, 12, 13, 14, 15, 16, 17, 18, 19, 20, 21, 22}}",
                    "{{1}, {5, 6, 7}, {5, 6}, {21, 22}}", '{"hdr"}'),     # hand-over to 18 validators (legacy m = 3)
                   ("vbft", "bft", 4, "{{5}, {2, 5}}", "{{1, 2, 3}, {5}, {2, 5}, {1, 2}}", '{"hdr"}'),
                   ("vbft", "bft", 4, "{{5}, {2, 5}}", "{{1, 2, 3}, {5}, {2, 5}}", '{"sub"}'),
                   ("solo", "bft", 3, "{{1, 2, 3}, {4}, {2, 4}}", "{{1, 2, 3}, {4}, {1, 2}, {2, 4}}", '{"hdr"}'),
                   ("solo", "bft", 3, "{{1, 2, 3}, {4}}", "{{1, 2, 3}, {4}, {1, 2}}", '{"sub"}'),
                   ("solo", "bft", 3, "{{1, 2, 3}, {4}}", "{{1, 2, 3}, {4}}", '{"add"}')]
    # ---- stage A: all TLC runs side by side (each one is a JVM start plus a small search)
    def j_thm():
        return ctx.mc("SigQuorum", "c14_thm.cfg", files={"c14_thm.cfg": cfg("theorem", n=2 if q else 3, emit="FALSE")}, timeout=1500, workers=4)

    def j_asis():
        return ctx.tlc("SigQuorum", "c14_asis.cfg", timeout=600, quiet=True, workers=1, files={"c14_asis.cfg": cfg(
            "replay", n=4, cfgs="{{5}}", lists="{{1}, {5}}", paths='{"sub"}', d=3, asis="TRUE", emit="FALSE",
            extra="INVARIANT PropC14\nPROPERTY PropC14Step")})

    def j_table():
        return ctx.gen("SigQuorum", "c14_table.cfg", "ROW", timeout=1500, files={"c14_table.cfg": cfg(
            "table", fulln=fulln, nsl=tset(worlds[("vbft", "legacy")][0]), nsb=tset(worlds[("vbft", "bft")][0]),
            nss=tset(worlds[("solo", "bft")][0]))})

    def j_replay(i):
        mode, rule, n, cfgs, lists, paths = replays[i]
        name = "c14_replay%d.cfg" % i
        return lambda: ctx.gen("SigQuorum", name, "TRACE", timeout=1500, files={name: cfg(
            "replay", mode=mode, rule=rule, n=n, cfgs=cfgs, lists=lists, paths=paths, d=3,
            extra="CONSTRAINT Emit\nINVARIANT PropC14\nPROPERTY PropC14Step")})
    resA = _par([j_thm, j_asis, j_table] + [j_replay(i) for i in range(len(replays))], 8)
    ctx.note("stage A (TLC) job finish times: %s" % _par.last)
    if resA[1].invariant_violated is None:
        ctx.fail("sensitivity run: the as-is model (peer set assigned before the body check) no longer violates PropC14")
    rows, rtraces = resA[2], resA[3:]
    if len(rows) < 1500:
        ctx.fail("too few table rows: %d" % len(rows))
    for i, t in enumerate(rtraces):
        if len(t) < 60:
            ctx.fail("too few behaviours from replay cfg %d: %d" % (i, len(t)))
    n_beh = sum(len(t) for t in rtraces)
    ctx.sample({"replay_behaviour": rtraces[1][len(rtraces[1]) // 2]})
    # ---- table rows: which world, which entry points
    order = {("solo", "bft"): 0, ("vbft", "legacy"): 1, ("vbft", "bft"): 2}
    trows = []
    for r_ in rows:
        k = (r_["mode"], r_["rule"])
        r_["cond"] = {("solo", "bft"): "", ("vbft", "legacy"): "main-low", ("vbft", "bft"): "main-high"}[k]
        r_["paths"] = worlds[k][1].get(r_["n"], "hdr,sub,add")
        trows.append(r_)
    # the rule must stay "legacy" above height 20,000,000 on any other network: same rows as vbft/legacy n=4
    for r_ in rows:
        if (r_["mode"], r_["rule"], r_["n"]) == ("vbft", "legacy", 4):
            x = dict(r_)
            x["cond"], x["paths"] = "other-high", "hdr" if q else "hdr,sub"
            trows.append(x)
    trows.sort(key=lambda x: (order[(x["mode"], x["rule"])] + (3 if x["cond"] == "other-high" else 0), x["n"]))
    ctx.sample({"table_row": trows[len(trows) // 3]})
    # the worlds above height 20,000,000 need the padded header index (about 1.3 GB, 5-12 s to build): own process
    padded = [x for x in trows if x["cond"] in ("main-high", "other-high")]
    plain = [x for x in trows if x["cond"] not in ("main-high", "other-high")]
    nt, ns = (16, 30) if q else (150, 60)
    # ---- stage B: all driver runs side by side (separate processes, separate ledgers)
    jobs = [lambda: ctx.driver(b, ["hdr-table", "hdr"], input_obj=plain, timeout=3000),
            lambda: ctx.driver(b, ["hdr-table", "hdr"], input_obj=padded, timeout=3000)]
    for i, (mode, rule, n, cfgs, lists, paths) in enumerate(replays):
        jobs.append((lambda i, mode, rule, n: lambda: ctx.driver(b, ["hdr-replay", mode, rule, str(n)], input_obj=rtraces[i], timeout=3000))(i, mode, rule, n))
    jobs.append(lambda: ctx.driver(b, ["hdr-random", str(nt), str(ns)], timeout=3000))
    resB = _par(jobs, 8 if q else 6)
    ctx.note("stage B (drivers: table, padded table, replays..., random) job finish times: %s" % _par.last)
    events = []
    for out in resB[:2]:
        for s in [o for o in out if o.get("skipped")]:
            if not (s["mode"] == "solo" and s["n"] > 16):
                ctx.fail("ledger could not be created: %s" % s)
            ctx.note("solo ledger with %d bookkeepers cannot be created (%s): %d rows not executed (%s)" % (s["n"], s["err"][:80], s["rows"], s["op"]))
        events += [o for o in out if "op" in o and not o.get("skipped")]
    n_table = len([e for e in events if e["op"] != "reset"])
    ctx.note("table: %d rows -> %d executions" % (len(trows), n_table))
    n_replay = 0
    for out in resB[2:-1]:
        ev = [o for o in out if "op" in o]
        n_replay += len([e for e in ev if "exp" in e])
        events += ev
    ctx.note("replay: %d behaviours -> %d executions" % (n_beh, n_replay))
    rnd = [o for o in resB[-1] if "op" in o]
    events += rnd
    ctx.sample({"recorded_events": [{k: e[k] for k in ("op", "mode", "bk", "sg", "cfg", "body", "acc", "obs")} for e in rnd[1:4]]})
    # ---- 4. the monitor judges everything that was executed
    # (in chunks of at most 40 000 events, cut at "reset" events, so that one TLC run stays small)
    bad = []
    lo = 0
    while lo < len(events):
        hi = min(len(events), lo + 40000)
        while hi < len(events) and events[hi]["op"] != "reset":
            hi += 1
        ok, hw, r = ctx.validate_trace("TraceSigQuorum", "TraceSigQuorum.cfg", events[lo:hi], timeout=2400, heap="12g")
        if not ok:
            ctx.fail("trace monitor did not consume the log (line %d of %d): %s" % (hw, hi - lo, r.out[-1500:]))
        mon = r.emitted("MONITOR")
        if len(mon) != 1:
            ctx.fail("no MONITOR verdict list in TLC output")
        for x in mon[0]:
            x["i"] += lo
            bad.append(x)
        lo = hi
    ctx.note("monitor run over %d events done" % len(events))
    seqs = sum(1 for e in events if e["op"] == "reset")
    ctx.cov["traces_validated_against_impl"] += seqs
    # classify monitor failures
    start = 0
    poisoned = None      # key of the defect that already fired in the current sequence
    badat = {x["i"] - 1: x for x in bad}
    for idx, e in enumerate(events):
        if e["op"] in ("reset", "sync"):
            if e["op"] == "reset":
                start = idx
            poisoned = None
            continue
        x = badat.get(idx)
        if x is None:
            continue
        cl = sorted(x["clauses"])
        if e["mode"] == "solo" and e["n"] > 16:
            # no bookkeeper address exists for more than MULTI_SIG_MAX_PUBKEY_SIZE (16) keys, so in such a world there is no
            # "canonical" header that must be accepted (since fix fbe1a29/ef67c94 the ledger refuses every such list): only
            # the safety clause (accepted => quorum of the set in force) is judged there
            cl = [c for c in cl if c != "rule"]
            if not cl:
                continue
            key = SOLO17
        elif poisoned:
            key = poisoned
        elif e["mode"] == "vbft" and e["op"] in ("sub", "add") and not e["acc"] and e["cfg"] and cl == ["setonly"]:
            key = "%s:%s" % (F11, e["op"])
            poisoned = key
        else:
            tag = e.get("tag") or ""
            if tag.startswith(("replay", "random")):
                tag = tag.split("-")[0]
            key = "%s-%s:%s:%s:%s" % (e["mode"], e["rule"], e["op"], "+".join(cl), tag)
        _viol(ctx, key, {"event": e, "clauses": cl, "set_in_force_by_spec": x["force"], "sequence": events[start:idx + 1][-6:]},
                      replay={"kind": "c14-sequence", "events": events[start:idx + 1]})
    # conformance with the implementation-shaped prediction (drift accounting)
    drift = 0
    for idx, e in enumerate(events):
        if "exp" in e and idx not in badat:
            if e["acc"] != e["exp"] or ("expset" in e and e["obs"] != [0] and sorted(e["obs"]) != sorted(e["expset"])):
                drift += 1
                if drift <= 3:
                    ctx.note("drift (prediction differs, monitor accepts): %s" % json.dumps({k: e.get(k) for k in
                             ("op", "mode", "rule", "n", "bk", "sg", "cfg", "body", "acc", "exp", "obs", "expset", "tag")}))
    distinct = set()
    for e in events:
        if e["op"] not in ("reset", "sync") and len(e["sg"]) >= 1:
            distinct.add((e["mode"], e["rule"], e["n"], e["op"], tuple(e["bk"]), tuple(e["sg"]), tuple(e["cfg"]), e["body"]))
    # (TLC runs were started from several threads: recompute the totals from the per-run records)
    ctx.cov["states"] = sum(r_["distinct"] for r_ in ctx.cov["tlc_runs"] if r_["cfg"] != "c14_asis.cfg")
    ctx.cov["transitions"] = sum(r_["generated"] for r_ in ctx.cov["tlc_runs"] if r_["cfg"] != "c14_asis.cfg")
    ctx.cov["evaluations"] = len([e for e in events if e["op"] not in ("reset", "sync")])
    ctx.cov["distinct_nontrivial"] = len(distinct)
    return ctx.finish(rule="P-TABLE: %d rows (all signer subsets up to %d validators x header variants, three rule/mode families) x "
                      "entry points = %d executions; P-REPLAY: all %d three-step behaviours of %d hand-over models = %d executions; "
                      "%d random runs x %d steps. Every execution is one event judged by TLC (TraceSigQuorum). distinct_nontrivial = "
                      "distinct (mode, rule, n, entry point, bookkeepers, signature tokens, announcement, body) with at least one "
                      "signature." % (len(rows), fulln, n_table, n_beh, len(replays), n_replay, nt, ns),
                      extra={"drift": drift, "monitor_failures": len(bad), "table_rows": len(rows), "behaviours": n_beh},
                      assumptions=["signatures are unforgeable (token k = real signature of key k over the real header hash; token 0 = four "
                                   "concrete kinds of invalid bytes)",
                                   "the set in force is the specification's variable, changed only by accepted announcements; the node's own "
                                   "maps are read through ledgerstore.VerifPeerInfo (hook) for the SetOnly clause",
                                   "the post-20,000,000 rule is reached by padding the in-memory header index (hook VerifPadHeaderIndex)",
                                   "validator sets of 1..N members; the empty announced set is outside the property's domain"])


_MAXV = 20


def _viol(ctx, key, detail, replay=None):
    """at most _MAXV distinct violation records per run (every further one is only counted)"""
    if len(ctx.violations) >= _MAXV and key not in [v[0] for v in ctx.violations] and not any(
            k.get("status") == "known" and (k["key"] == key or (k["key"].endswith("*") and key.startswith(k["key"][:-1]))) for k in ctx.known):
        ctx.cov["violations_not_recorded"] = ctx.cov.get("violations_not_recorded", 0) + 1
        return True
    return ctx.violation(key, detail, replay=replay)
