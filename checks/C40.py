"""C40 - VBFT participant selection is well formed.
spec/VbftSelect.tla (+VbftSelectMC.tla, TraceVbftSelect.tla); driver harness/cmd/vd-vbft select.
  1. P-MC      : PropC40 on the bit-exact transcription of calcParticipant / calcParticipantPeers /
                 buildParticipantConfig for EVERY 2-byte seed on tables of length <= 8 (scaled layout: 16 slots).
  2. P-VALIDATE: chain configs built by the real GenesisChainConfig from pools of N = 4..10 and of N = 40..49 (thorough
                 13..64), plus hand-made skewed position tables in which one or two validators hold a single position; the real
                 buildParticipantConfig (seed from the real getParticipantSelectionSeed), calcParticipantPeers and
                 calcParticipant are called (each twice: other server index, deep-copied config) on random and
                 degenerate seeds; TLC recomputes every output on the real layout (64-byte seed, 512 slots) and
                 evaluates the monitor predicates on every logged output.  On the large / skewed configs (where the
                 committer window of 240 slots often runs dry) every draw is judged by the monitor and the first few per
                 config are also recomputed.  The production entry point Server.updateParticipantConfig is driven for
                 the round after an ordinary block and after a chain-config block (old / new config differing in N, C,
                 membership): the selection must be Build(config in force, seed of the sealed block) and equal for a node
                 that has and one that has not switched Server.config yet.
"""
import json

KEYS = {"cfg": "vbft-select:pos-table-not-from-pool-or-not-a-function",
        "build": "vbft-select:selection-malformed-or-not-a-function",
        "peers": "vbft-select:range-malformed-or-not-a-function",
        "part": "vbft-select:slot-outside-table",
        "round": "vbft-select:round-selection-not-from-config-in-force"}


def run(ctx):
    q = ctx.quick
    b = ctx.build("vd-vbft")
    ctx.mc("VbftSelectMC", "VbftSelect_mc_quick.cfg" if q else "VbftSelect_mc_thorough.cfg", timeout=6000,
           workers=max(2, ctx.cores // 2))
    ctx.mc("VbftSelectMC", "VbftSelect_mc_round.cfg", timeout=6000, workers=2)
    builds, seeds, xbuilds, xre, rounds = (35, 1, 150, 3, 10) if q else (1000, 12, 1500, 25, 150)
    events = ctx.driver(b, ["select", str(builds), str(seeds), str(xbuilds), str(xre), str(rounds)])
    nround = sum(1 for e in events if e["op"] == "round")
    if nround < 100 or not any(e["op"] == "round" and e["new"]["tbl"] and not e["err"] for e in events):
        ctx.fail("vacuous recording of the round entry point: %d round events" % nround)
    cfgs, cur = {}, None
    ok_by_n, err_by_n, distinct = {}, {}, set()
    for e in events:
        if e["op"] in ("panic", "cfgfail"):
            # the property does not speak about panics; a crashing selection gives no observation to judge
            ctx.fail("selection code panicked / config could not be built: %s" % json.dumps(e)[:1500])
        if e["op"] == "round":
            if not e["err"]:
                distinct.add(("round", len(e["cur"]["tbl"]), len(e["new"]["tbl"]), tuple(e["p"]), tuple(e["e"]), tuple(e["c"])))
        elif e["op"] == "cfg":
            cfgs[e["id"]] = e
        elif e["op"] == "build":
            n = cfgs[e["id"]]["n"]
            if e["err"]:
                err_by_n[n] = err_by_n.get(n, 0) + 1
            else:
                ok_by_n[n] = ok_by_n.get(n, 0) + 1
                distinct.add((e["id"], tuple(e["p"]), tuple(e["e"]), tuple(e["c"])))
        elif e["op"] == "peers" and e["out"]:
            distinct.add((e["id"], e["kind"], tuple(e["props"]), tuple(e["out"])))
    if len(cfgs) < 10 or sum(ok_by_n.values()) < 100:
        ctx.fail("vacuous recording: %d configs, successful selections per N: %s" % (len(cfgs), ok_by_n))
    ok, hw, r = ctx.validate_trace("TraceVbftSelect", "TraceVbftSelect.cfg", events, timeout=6000)
    if not ok:
        ctx.fail("trace validation did not consume the whole log (highwater %d of %d):\n%s" % (hw, len(events), r.out[-3000:]))
    drift = 0
    for v in r.emitted("VERDICT"):
        e = events[v["l"] - 1]
        c = cfgs.get(e.get("id"), {})
        if not v["mon"]:
            ctx.violation(KEYS[e["op"]], {"event": e, "config": {k: c.get(k) for k in ("n", "c", "tbl", "pool")}},
                          replay={"kind": "vbft-select-event", "config": c, "event": e})
        elif not v["conf"]:
            drift += 1
            if drift <= 5:
                ctx.note("DRIFT: output differs from the transcription but satisfies the property: %s" % json.dumps(e)[:600])
    if drift:
        ctx.note("DRIFT: %d recorded outputs differ from the transcription but satisfy the property" % drift)
    never = sorted(n for n in err_by_n if n not in ok_by_n)
    if never:
        ctx.note("observation (not part of C40 as stated): no seed yields a selection for N in %s (C = N/3 = N div 3 leaves only 2C "
                 "peers outside the leading proposers; calcParticipantPeers wants 2C+1, runs through all 512 slots and returns "
                 "an empty list, buildParticipantConfig fails for every seed)" % never)
    ctx.sample({"config": {k: cfgs[1][k] for k in ("n", "c", "pool")}, "table_len": len(cfgs[1]["tbl"])})
    ctx.sample(next(e for e in events if e["op"] == "build" and not e["err"]))
    ctx.sample(next(e for e in events if e["op"] == "peers" and e["kind"] == "E"))
    ctx.cov["traces_validated_against_impl"] = 1
    ctx.cov["evaluations"] = len(events)
    ctx.cov["distinct_nontrivial"] = len(distinct)
    return ctx.finish(
        rule="P-VALIDATE: %d recorded calls (%d configs: GenesisChainConfig tables for N=4..10 and N>=40, skewed hand-made tables; "
             "%d buildParticipantConfig draws of which %d returned a selection - each judged by the monitor, %d also recomputed; plus calcParticipantPeers / calcParticipant on all-zero, all-0xFF, single-bit, sparse, "
             "repeated-byte and random seeds) recomputed by TLC; distinct_nontrivial = distinct non-empty selections / ranges per "
             "config." % (len(events), len(cfgs), sum(ok_by_n.values()) + sum(err_by_n.values()), sum(ok_by_n.values()),
                          sum(1 for e in events if e["op"] == "build" and e.get("re"))),
        assumptions=["a failed selection (error / empty range) is an admissible outcome; the monitor constrains returned selections",
                     "leading proposers = the first C of the C+1 proposers (what calcParticipantPeers skips)",
                     "seeds for buildParticipantConfig are SHA-512 outputs of random previous blocks; degenerate seeds are fed to "
                     "calcParticipantPeers directly (export hook) with the proposer list the proposer range yields"])
