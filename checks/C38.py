"""C38 - Recent-block duplicate detection is exact (validator/increment) + ledger duplicates fail stateful validation.
spec/IncrValidator.tla (+TraceIncrValidator.tla), spec/StatefulCheck.tla; driver harness/cmd/vd-incr.
  1. P-MC     : PropC38 on the tracker model with the ghost run of accepted blocks (the tracker holds exactly the last
                min(max, n) contiguous blocks; Verify is a duplicate report iff the tx is in a tracked block at or above the
                start height), PropC38S on the ledger model; exhaustive.
  2. P-EDGE   : every (tracker state, call, args) edge replayed on a fresh real IncrementValidator; the returned verdict /
                range and the post-state (BlockRange and the full Verify matrix tx x start height) compared.
  3. P-VALIDATE: random histories (capacities 1,2,3,5,20 and the default spellings 0 / -3, gaps, stale heights, Clean)
                recorded from real trackers and validated by TLC against TraceIncrValidator; a real on-disk ledger
                (ledger.DefLedger) grows by real blocks while the real stateful validator actor is asked about
                transactions inside / outside the ledger, validated against StatefulCheck.
"""
from concurrent.futures import ThreadPoolExecutor


def run(ctx):
    q = ctx.quick
    b = ctx.build("vd-incr")
    for cfg in (["IncrValidator_mc_quick.cfg"] if q else ["IncrValidator_mc_thorough.cfg", "IncrValidator_mc_thorough3.cfg"]):
        ctx.mc("IncrValidator", cfg, timeout=3600)
    ctx.mc("StatefulCheck", "StatefulCheck_mc.cfg", timeout=600)
    gens = [("IncrValidator_gen_quick.cfg", 2), ("IncrValidator_gen_quick3.cfg", 3)] if q else \
           [("IncrValidator_gen_quick.cfg", 2), ("IncrValidator_gen_thorough.cfg", 3)]
    with ThreadPoolExecutor(max_workers=2) as ex:
        futs = [ex.submit(ctx.gen, "IncrValidator", cfg, "EDGE", timeout=2400) for cfg, _ in gens]
        edge_sets = [f.result() for f in futs]
    total = distinct = 0
    for (cfg, ntx), edges in zip(gens, edge_sets):
        if len(edges) < 5000:
            ctx.fail("too few edges generated from %s: %d" % (cfg, len(edges)))
        out = ctx.driver(b, ["incr-edges", str(ntx)], input_obj=edges)
        summ = [o for o in out if o.get("summary")][0]
        if summ["edges"] != len(edges):
            ctx.fail("driver replayed %d of %d edges" % (summ["edges"], len(edges)))
        total += summ["edges"]
        distinct += summ["distinct"]
        ctx.sample({"edge": edges[len(edges) // 2]})
        for o in out:
            if o.get("mismatch"):
                e = o["edge"]
                # the model is the transcription of the code AND satisfies the monitor (TLC); a deviating verdict, range or
                # Verify matrix is judged against the monitor below before it is called a violation
                if _allowed_by_monitor(e, o):
                    ctx.note("drift accepted by the monitor: %s %s" % (e["op"], e["a"]))
                    continue
                ctx.violation("incr-edge:%s:%s" % (e["op"], "+".join(o["diffs"])),
                              {"args": e["a"], "capacity": e["h"]["max"], "expected_obs": e["obs"], "got_obs": o.get("got"),
                               "expected_post": e["post"], "got_range": o.get("gotRange"), "got_verify_matrix": o.get("gotVm"),
                               "panic": o.get("panic"), "history": e["h"]["ops"]}, replay={"kind": "incr-edge", "edge": e})
    n, ln = (25, 120) if q else (300, 200)
    events = ctx.driver(b, ["incr-record", str(n), str(ln)])
    if any(e.get("op") == "PANIC" for e in events):
        bad = [e for e in events if e.get("op") == "PANIC"][0]
        ctx.violation("incr-trace:panic", {"event": bad}, replay={"kind": "incr-trace", "events": events[-100:]})
    else:
        ok, hw, r = ctx.validate_trace("TraceIncrValidator", "TraceIncrValidator.cfg", events, timeout=2400)
        if not ok:
            bad = events[hw - 1] if hw - 1 < len(events) else {}
            lo = hw - 1
            while lo > 0 and events[lo].get("op") != "reset":
                lo -= 1
            ctx.violation("incr-trace:%s" % bad.get("op"), {"rejected_event_index": hw, "event": bad, "invariant": r.invariant_violated,
                          "history": events[lo:hw][-60:]}, replay={"kind": "incr-trace", "events": events[lo:hw]})
        else:
            ctx.cov["traces_validated_against_impl"] += n
    nblocks = 25 if q else 150
    sev = ctx.driver(b, ["stateful", str(nblocks)])
    ok, hw, r = ctx.validate_trace("StatefulCheck", "StatefulCheck_trace.cfg", sev, timeout=1200)
    if not ok:
        bad = sev[hw - 1] if hw - 1 < len(sev) else {}
        ctx.violation("stateful:%s:%s" % (bad.get("op"), bad.get("obs")), {"rejected_event_index": hw, "event": bad,
                      "invariant": r.invariant_violated, "context": sev[max(0, hw - 10):hw]}, replay={"kind": "stateful-trace", "events": sev[:hw]})
    checks = [e for e in sev if e.get("op") == "check"]
    if ok:
        ctx.cov["traces_validated_against_impl"] += 1
        if not [e for e in checks if e["obs"] == "dup"] or not [e for e in checks if e["obs"] == "ok"]:
            ctx.fail("stateful run is vacuous: %d checks" % len(checks))
    ctx.sample({"stateful_events": sev[:4]})
    ctx.cov["evaluations"] = total + len(events) + len(sev)
    ctx.cov["distinct_nontrivial"] = distinct + len({(e["a"][0], e["obs"]) for e in checks})
    return ctx.finish(rule="P-EDGE: every (tracker state = base x tracked tx sets x capacity, call, args) edge printed once by TLC and replayed "
                      "on a fresh real IncrementValidator; distinct_nontrivial = distinct (call,args,answer,post range+Verify matrix) tuples "
                      "with a non-empty history + distinct (tx, answer) stateful checks. P-VALIDATE: %d tracker histories x %d calls, one "
                      "real ledger of %d blocks with %d actor queries." % (n, ln, nblocks, len(checks)),
                      assumptions=["transactions are real invoke transactions with distinct hashes; blocks carry only a height and transactions",
                                   "a Verify below the tracked range is refused by the code; the monitor only demands that it never ACCEPTS a "
                                   "transaction that is in a tracked block (refusal is the safe answer)",
                                   "heights stay far below 2^32 (no wrap-around)",
                                   "stateful validator: the ledger is a real on-disk LedgerStoreImp in solo mode installed as ledger.DefLedger; "
                                   "the actor is driven through the real ontology-eventbus"])


def _allowed_by_monitor(e, o):
    """Replay mismatch -> is the real behaviour still inside PropC38?  Only one relaxation exists: below the tracked range the
    code may answer ok/err freely for a transaction that is in no tracked block.  Everything else is exact."""
    if o.get("panic") or "range" in o["diffs"]:
        return False
    exp_vm, got_vm = e["post"]["vm"], o.get("gotVm") or []
    lo = e["post"]["range"][0]
    if len(got_vm) != len(exp_vm):
        return False
    for t in range(len(exp_vm)):
        dup_anywhere = any(exp_vm[t][s] == "err" for s in range(lo, len(exp_vm[t])))
        for s in range(len(exp_vm[t])):
            if exp_vm[t][s] != got_vm[t][s] and not (s < lo and not dup_anywhere):
                return False
    if "obs" in o["diffs"]:
        if e["op"] != "verify":
            return False
        tx, st = e["a"]
        dup_anywhere = any(exp_vm[tx - 1][s] == "err" for s in range(lo, len(exp_vm[tx - 1])))
        return st < lo and not dup_anywhere
    return True
