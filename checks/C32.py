"""C32 - Governance approvals need two thirds of distinct current validators.
spec/GovCore.tla + Governance.tla (Mode = "C32") + GovJudge.tla; driver vd-gov.
SINGLE approvals by any of the N validators, a candidate's key account (consensus member after the epoch change), a former
validator (quits, dropped at the epoch change) and an outsider, for every consensus-approved method (approveCandidate,
blackNode, whiteNode, approve register / update / quit side chain, approve register / remove relayer, approve register /
remove state validator), with a second request of the same method and a request of another method pending alongside and an
epoch change in between.  Monitor PropC32 (ghost: the addresses that approved this (method, request) since it was requested):
the action takes effect at an approval iff the approvers that are consensus validators at that moment number at least
ceil(2N/3).  See checks/_gov.py for the pipeline.
"""
from checks import _gov


def run(ctx):
    q = ctx.quick
    # the quick configuration is part of both tiers (its exploration of the real contracts around the deviations is
    # complete or nearly so); the thorough tier adds the larger configuration
    _gov.run_gov(ctx, "C32", "C32", "Governance_C32_gen_quick.cfg", nv=4, depth=3, cap=1500)
    if not q:
        _gov.run_gov(ctx, "C32", "C32", "Governance_C32_gen_thorough.cfg", nv=5, depth=4, cap=6000)
    return ctx.finish(rule="P-EDGE: every (model state, action) edge of Governance.tla in mode C32 replayed on the real contracts; "
                      "deviating real executions and a bounded exploration from each deviating state are judged by TLC (GovJudge) with "
                      "the PropC32 monitor. distinct_nontrivial = distinct (action, result, post-state) of conforming edges whose call "
                      "was not refused.",
                      assumptions=_gov.ASSUME + ["stored approvals bounded by MaxSigns per state; N = 4 (quick), 5 and 7 (thorough)"])
