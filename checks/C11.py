"""C11 - Block state-change digest depends only on the net write set.
spec/Overlay.tla (WriteSeq / ChangeDigest = Sha(WriteSeq(blk)), Sha a free symbol evaluated by the driver with the real
SHA-256), spec/TraceOverlay.tla, spec/StateRoot.tla; driver harness/cmd/vd-store (overlay.go, digest.go).

"Net write set" (decided from the statement and the code, see notes/built/C11.md): the final cell of every key WRITTEN in
the block - a key whose last write is a delete stays in the write set as a tombstone (it must: CommitTo turns it into a
store delete), whether or not the key existed in the store; keys never written do not appear.  So put;delete == delete,
but put;delete =/= nothing.

  1. P-MC     : PropC11 on Overlay (the write sequence is sorted, duplicate free, exactly the written keys with their final
                cells) and PropC11R / PropC11RStep on StateRoot.
  2. P-EDGE   : every edge of the Overlay state graph: GetWriteSet() = predicted block layer, ChangeHash() = SHA-256 of the
                concretized predicted sequence.
  3. P-REPLAY : all write histories up to Depth (tx puts/deletes, direct block-layer writes, commit, resets, flush): many
                histories per final block layer; each real digest must be the Sha of the predicted sequence.
  4. P-VALIDATE: random pairs (history, equivalent rewrite: permuted commuting writes, redundant overwrites,
                delete-then-put, failed / split / merged / reordered / overwritten transactions, direct writes) on the real
                stack with different persisted contents and delete spellings, and the same kind of pairs as real blocks
                through LedgerStoreImp.ExecuteBlock; TLC validates the recorded runs against TraceOverlay, whose digest
                event is enabled only if the write set is the model's and the digest agrees with every earlier digest of
                the same write sequence.
  5. P-REPLAY : StateRoot traces on a real StateStore (AddStateMerkleTreeRoot / GetStateMerkleRoot /
                GetStateMerkleRootWithNewHash) against the predicted root terms.
"""
from concurrent.futures import ThreadPoolExecutor


def run(ctx):
    q = ctx.quick
    b = ctx.build("vd-store")
    ctx.mc("Overlay", "Overlay_mc_quick3.cfg" if q else "Overlay_mc_thorough.cfg", timeout=2400)
    jobs = [("Overlay", "Overlay_gen_k2.cfg", "EDGE", 2, "overlay-edges"),
            ("Overlay", "Overlay_replay_quick.cfg", "TRACE", 2, "overlay-traces")]
    if not q:
        jobs += [("Overlay", "Overlay_gen_k3.cfg", "EDGE", 3, "overlay-edges"),
                 ("Overlay", "Overlay_replay_thorough.cfg", "TRACE", 3, "overlay-traces"),
                 ("Overlay", "Overlay_replay_thorough2.cfg", "TRACE", 2, "overlay-traces")]
    jobs.append(("StateRoot", "StateRoot_quick.cfg" if q else "StateRoot_thorough.cfg", "TRACE", 0, "state-roots"))
    with ThreadPoolExecutor(max_workers=4) as ex:
        futs = [ex.submit(ctx.gen, m, cfg, tag, timeout=2400) for m, cfg, tag, _, _ in jobs]
        sets = [f.result() for f in futs]
    total = distinct = groups = 0
    for (m, cfg, tag, k, cmd), items in zip(jobs, sets):
        if len(items) < 100:
            ctx.fail("too few items generated from %s: %d" % (cfg, len(items)))
        out = ctx.driver(b, [cmd] + ([str(k)] if k else []), input_obj=items)
        summ = [o for o in out if o.get("summary")][0]
        n = summ.get("edges", summ.get("traces"))
        if n != len(items):
            ctx.fail("driver replayed %d of %d items of %s" % (n, len(items), cfg))
        total += n
        distinct += summ["distinct"]
        groups += summ.get("wsGroups", 0)
        ctx.sample({cfg: items[len(items) // 2]})
        if summ.get("wsGroupsWithSeveralDigests"):
            ctx.violation("digest:several-digests-for-one-write-set", {"groups": summ["wsGroupsWithSeveralDigests"], "cfg": cfg})
        for o in out:
            if not o.get("mismatch"):
                continue
            if cmd == "state-roots":
                ctx.violation("state-root:mismatch", {"diffs": o["diffs"], "trace": o["trace"]}, replay={"kind": "state-roots", "trace": o["trace"]})
                continue
            c11 = [d for d in o["diffs"] if d in ("blk", "ws", "digest", "panic", "inconsistent")]
            if not c11:
                continue            # reads / scans / store / tx layer: C10's business
            e = o["edge"]
            ctx.violation("digest-%s:%s" % ("edge" if cmd == "overlay-edges" else "history", "+".join(c11)),
                          {"diffs": o["diffs"], "keys": o.get("keys"), "op": e.get("op"), "args": e.get("a"), "v": e.get("v"),
                           "expected_layers": e["post"], "got_layers": o.get("gotPost"), "expected_digest": o.get("expDigest"),
                           "panic": o.get("panic"), "inconsistent": o.get("inconsistent"), "history": e["h"]},
                          replay={"kind": cmd, "k": k, "edge": e})
    # equivalent pairs, recorded
    npairs, ntx, nled = (40, 5, 12) if q else (500, 7, 120)
    events = ctx.driver(b, ["digest-pairs", str(npairs), str(ntx)]) + ctx.driver(b, ["digest-ledger", str(nled), str(ntx)])
    digs = [e for e in events if e.get("op") == "digest"]
    hard = [e for e in events if e.get("op") == "PANIC"] + [e for e in digs if e.get("bad")]
    for e in digs:
        if not e.get("shaok"):
            ctx.violation("digest:changehash-is-not-sha256-of-sorted-write-set", {"event": e}, replay={"kind": "digest-event", "event": e})
        if e.get("rootsEqual") is False:
            ctx.violation("digest-ledger:merkle-root-differs-for-equivalent-blocks", {"event": e}, replay={"kind": "digest-event", "event": e})
    if hard:
        ctx.violation("digest-trace:%s" % ("panic" if hard[0].get("op") == "PANIC" else "write-set-malformed"), {"event": hard[0]},
                      replay={"kind": "digest-trace", "events": events[:events.index(hard[0]) + 1][-100:]})
    else:
        ok, hw, r = ctx.validate_trace("TraceOverlay", "TraceOverlay.cfg", events, timeout=2400)
        if not ok:
            bad = events[hw - 1] if hw - 1 < len(events) else {}
            key = "digest-trace:%s" % bad.get("op")
            if bad.get("op") == "digest":
                clash = [e for e in digs if e is not bad and e["kid"] == bad["kid"] and e["obs"] == bad["obs"] and e["d"] != bad["d"]]
                key = "digest-trace:%s" % ("digest-differs-for-equal-write-set" if clash else "write-set-differs-from-model")
            lo = hw - 1
            while lo > 0 and events[lo].get("op") != "reset":
                lo -= 1
            ctx.violation(key, {"rejected_event_index": hw, "event": bad, "invariant": r.invariant_violated, "history": events[lo:hw]},
                          replay={"kind": "digest-trace", "events": events[lo:hw]})
        else:
            ctx.cov["traces_validated_against_impl"] += 2 * (npairs + nled)
            # generator sanity: both members of a pair must have ended in the same (model-confirmed) write sequence
            pairs = {}
            for e in digs:
                if "pair" in e:
                    pairs.setdefault((bool(e.get("ledger")), e["pair"]), []).append(e)
            neq = [p for p in pairs.values() if len(p) != 2 or p[0]["obs"] != p[1]["obs"]]
            if neq:
                ctx.fail("pair generator produced a non-equivalent rewrite (rules %s): not a verdict" % neq[0][0].get("rules"))
            rules = sorted({r for p in pairs.values() for r in p[0].get("rules", [])})
            ctx.note("pairs validated: %d, rewrite rules exercised: %s" % (len(pairs), ",".join(rules)))
            distinct += len({(e["kid"], str(e["obs"])) for e in digs})
    ctx.sample({"pair_digest_events": digs[:2]})
    ctx.cov["evaluations"] = total + len(events)
    ctx.cov["distinct_nontrivial"] = distinct
    return ctx.finish(rule="every P-EDGE edge and every write history up to the replay depth is executed on the real stack and the real "
                      "ChangeHash()/GetWriteSet() compared with Sha(WriteSeq(blk))/blk; distinct_nontrivial = distinct (op,args,"
                      "observation,post-layers) tuples + distinct state-root traces + distinct recorded write sets; %d+%d recorded "
                      "equivalent pairs validated by TLC (%d predicted write sets reached by several histories)." % (npairs, nled, groups),
                      assumptions=["net write set = final cell of every key written in the block, tombstones included (see module docstring)",
                                   "digest equality is checked within one key concretization; SHA-256 collisions are out of scope",
                                   "the missing length framing of ChangeHash (k1 v1 k2 v2 concatenated) makes different write sets collide "
                                   "in principle (a->bc vs ab->c); the property asks for functionality, not injectivity - observation only",
                                   "state roots: heights are fed contiguously from 0, check heights 0/1/3"])
