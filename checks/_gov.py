"""Shared machinery of the governance checks C32 C33 C34 C35 (spec/GovCore.tla, Governance.tla, GovJudge.tla;
driver harness/cmd/vd-gov).

  1. TLC explores the model of the intended contracts exhaustively (one cfg per property, PropAll invariant = all four
     monitors on every transition) and prints every (state, action) edge once.  (P-MC + generation in one run.)
  2. vd-gov replays every edge through the real exported contract functions and compares result and projected storage.
  3. Where the real contracts deviate, the driver records the real execution and explores the real contracts on from
     the deviating state (bounded breadth-first search over the same action alphabet).
  4. TLC (GovJudge.tla) folds the ghost state over each recorded real execution and evaluates the monitors of
     GovCore.tla: a violated clause of THIS property is a violation (key = the clause), anything else is drift.
"""
import json
import re


def _cfg_variant(ctx, cfg, altsp, extra=None):
    """copy of a cfg in the scratch spec dir with AltSp (and other constants) replaced; returns (name, files)"""
    txt = open("%s/%s" % (ctx.specdir, cfg)).read()
    txt = re.sub(r"AltSp = \w+", "AltSp = %s" % ("TRUE" if altsp else "FALSE"), txt)
    for k, v in (extra or {}).items():
        txt = re.sub(r"\b%s = \S+" % k, "%s = %s" % (k, v), txt)
    name = cfg.replace(".cfg", "_run.cfg")
    return name, {name: txt}


def _replay(ctx, pid, b, altsp):
    """vcheck <ID> --replay replays/<file>: re-execute the recorded execution on the real contracts and judge it again"""
    rp = json.load(open(ctx.replay))["replay"]
    out = ctx.driver(b, ["replay", rp["mode"], str(rp["nv"])], input_obj=[rp])
    t = out[0]["trace"]
    jname, jfiles = _cfg_variant(ctx, "GovJudge.cfg", altsp)
    jfiles["judge.ndjson"] = json.dumps(t, separators=(",", ":"), sort_keys=True) + "\n"
    r = ctx.tlc("GovJudge", jname, workers=1, files=jfiles, timeout=600)
    v = r.emitted("VERDICT")
    if r.rc != 0 or len(v) != 1:
        ctx.fail("judge run failed on the replay rc=%d:\n%s" % (r.rc, r.out[-2000:]))
    for x in v[0]["bad"]:
        if x["p"] == pid:
            key = "%s:%s" % (x["p"], x["c"])
            ctx.violation(key, {"clause": key, "actions": [_short(s["a"]) + " -> " + s["r"] for s in t["steps"][:x["n"]]]},
                          replay=rp)
    ctx.cov["traces_validated_against_impl"] += 1
    ctx.cov["evaluations"] = len(t["steps"])
    ctx.cov["distinct_nontrivial"] = len(t["steps"])
    ctx.sample({"replayed": [_short(s["a"]) + " -> " + s["r"] for s in t["steps"]]})
    return {"edges": 0}, altsp


def run_gov(ctx, pid, mode, gen_cfg, nv, depth, cap, mc_cfg=None, min_edges=300):
    b = ctx.build("vd-gov")
    probe = ctx.driver(b, ["probe"])
    altsp = bool(probe[0]["altsp_accepted"])
    if ctx.replay:
        return _replay(ctx, pid, b, altsp)
    ctx.note("real RegisterCandidate %s the upper-case hex spelling of a key" % ("accepts" if altsp else "refuses"))
    if mc_cfg:
        name, files = _cfg_variant(ctx, mc_cfg, altsp)
        ctx.mc("Governance", name, files=files, timeout=1500)
    name, files = _cfg_variant(ctx, gen_cfg, altsp)
    edges = ctx.gen("Governance", name, "EDGE", files=files, timeout=1500)
    if len(edges) < min_edges:
        ctx.fail("too few edges generated from %s: %d" % (gen_cfg, len(edges)))
    out = ctx.driver(b, ["edges", mode, str(nv), str(depth), str(cap)], input_obj=edges, timeout=1700)
    summ = [o for o in out if o.get("summary")][0]
    traces = [o["trace"] for o in out if "trace" in o]
    if summ["edges"] != len(edges):
        ctx.fail("driver replayed %d of %d edges" % (summ["edges"], len(edges)))
    if summ["matched"] == 0:
        ctx.fail("none of %d edges conform: harness or model broken" % len(edges))
    ctx.note("edges %(edges)d matched %(matched)d deviations %(deviations)d unreachable-after-deviation %(unreachable)d "
             "off-model steps %(offmodel)d (cap hit: %(cap_hit)s)" % summ)
    ctx.sample({"edge": {k: edges[len(edges) // 2][k] for k in ("h", "a", "r")}})
    own = other = drift = 0
    if traces:
        jname, jfiles = _cfg_variant(ctx, "GovJudge.cfg", altsp)
        jfiles["judge.ndjson"] = "\n".join(json.dumps(t, separators=(",", ":"), sort_keys=True) for t in traces) + "\n"
        r = ctx.tlc("GovJudge", jname, workers=1, files=jfiles, timeout=1500)
        if r.rc != 0:
            ctx.fail("judge run failed rc=%d:\n%s" % (r.rc, r.out[-3000:]))
        verdicts = {v["id"]: v for v in r.emitted("VERDICT")}
        if len(verdicts) != len(traces):
            ctx.fail("judge returned %d verdicts for %d recorded executions" % (len(verdicts), len(traces)))
        ctx.cov["traces_validated_against_impl"] += len(traces)
        for t in traces:
            bad = verdicts[t["id"]]["bad"]
            mine = [x for x in bad if x["p"] == pid]
            if not mine:
                if bad:
                    other += 1
                else:
                    drift += 1
                continue
            own += 1
            for x in sorted(mine, key=lambda x: x["n"]):
                steps = t["steps"][:x["n"]]
                key = "%s:%s" % (x["p"], x["c"])
                ctx.violation(key, {"clause": key,
                                    "actions": [_short(a) for a in t["h"]] + [_short(s["a"]) + " -> " + s["r"] for s in steps],
                                    "state_before": steps[-2]["t"] if len(steps) > 1 else t["init"],
                                    "state_after": steps[-1]["t"]},
                              replay={"kind": "gov-trace", "mode": mode, "nv": nv, "history": t["h"], "ghost": t["g"],
                                      "init": t["init"], "steps": steps})
        ctx.sample({"recorded_real_execution": [_short(a) for a in traces[0]["h"]] +
                    [_short(s["a"]) + " -> " + s["r"] for s in traces[0]["steps"]]})
    ctx.note("recorded real executions judged: %d (violating %s: %d, only other governance properties: %d, drift: %d)"
             % (len(traces), pid, own, other, drift))
    if summ["matched"] < len(edges) // 10 and own == 0:
        # almost nothing conforms and the monitor of this property has nothing to say: no basis for "held"
        ctx.fail("only %d of %d edges conform and no %s clause is violated: no verdict" % (summ["matched"], len(edges), pid))
    ctx.cov["evaluations"] += summ["edges"] + summ["offmodel"]
    ctx.cov["distinct_nontrivial"] += summ["distinct"]
    return summ, altsp


def _short(a):
    t = a["t"]
    if t in ("ap", "round"):
        return "%s(%s %s%s)" % (t, a["m"], a["q"], (" by " + a["own"]) if t == "ap" else "")
    if t in ("reg", "unreg", "quit"):
        return "%s(%s%s by %s)" % (t, a["k"], a["sp"], a["own"])
    if t in ("screg", "scupd", "scquit"):
        return "%s(chain %s by %s %s)" % (t, a["id"], a["own"], a["ver"])
    if t in ("relreg", "relrem", "svreg", "svrem"):
        return "%s(%s by %s)" % (t, ",".join(a["who"]), a["own"])
    if t == "commit":
        return "commit(witness %s)" % a["own"]
    return t


ASSUME = ["witnesses are given as transaction signer addresses (nativekit.Tx); signature checking is C39's subject",
          "each contract call is one atomic transaction (cache reset on error), as the ledger executes it (C15)",
          "observation = storage projected through the contracts' getters and raw storage keys as named in the contracts"]
