"""Shared helpers of the Merkle checks (C03 C06 C07 C08): spec/Merkle.tla tables -> vd-merkle."""
import json


def table(ctx, cfg, timeout=1500, workers=None, files=None):
    """Run one table of spec/Merkle.tla: TLC checks the model-level property (INVARIANT in the cfg; a failure is a
    model-level alarm = exit 2) and prints the rows.  Returns (rows, pools) as driver input lines."""
    r = ctx.tlc("Merkle", cfg, workers=workers or ctx.cores, timeout=timeout, files=files)
    ctx.cov["states"] += r.distinct
    ctx.cov["transitions"] += r.generated
    if r.rc != 0:
        ctx.fail("model-level alarm in Merkle/%s (rc=%d, invariant %s) - not a verdict about the code:\n%s" %
                 (cfg, r.rc, r.invariant_violated, r.counterexample()[:3000]))
    rows = [{"tag": "ROW", "v": x} for x in r.emitted("ROW")]
    pools = [{"tag": "POOL", "v": x} for x in r.emitted("POOL")]
    return rows, pools


def cfg_text(table, n, sizes="{}", doubles="FALSE", pool="full", lab="id", prop="PropC06"):
    return ("SPECIFICATION Spec\nCONSTANTS Table = \"%s\"\n          N = %d\n          Sizes = %s\n          Doubles = %s\n"
            "          PoolMode = \"%s\"\n          Lab = \"%s\"\n          EmitOn = TRUE\nINVARIANT %s\nCHECK_DEADLOCK FALSE\n"
            % (table, n, sizes, doubles, pool, lab, prop))


def summary(out):
    s = [o for o in out if o.get("summary")]
    return s[0] if s else None


def load_replay(ctx):
    """--replay <file>: take seed and tier-independent case description from a replay file written by ctx.violation.
    C03/C06/C08 re-run their (deterministic, seed-derived) quick tier with that seed; C07 re-runs exactly the one row."""
    if not ctx.replay:
        return None
    f = json.load(open(ctx.replay))
    if "seed" in f:
        ctx.seed = int(f["seed"])
    return f.get("replay")
